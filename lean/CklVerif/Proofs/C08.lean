/-
  C08 — rendering is canonical, and data literals round-trip through print and parse.

  `renderWith dr v` is the model of `__repr__` (`dr` renders decimals; `render = renderWith decRepr`),
  `Lexer.scan` the scanner, `Parser.parse` the parser, `parseScript = scan >=> parse`.

  Part 1: the text of a set / map does not depend on the (hash / insertion) order of its
          elements; ints render as plain decimal numerals, decimals always carry a `.`.
  Part 2: `'` `escapeStr s` `'` scans back to the string token `s`, in any context.
  Part 3: the numeral of an int scans back to an `int` token (preceded by the operator token `-`
          for a negative int), before any number terminator.
  Part 4: `parseScript (render v) = literal v` for NULL (as the identifier `NULL`), booleans,
          strings and ints (the parser folds the sign of a negative int).
  Part 5: (nested) lists of such scalars scan to the expected token sequence.
  Part 6: decimals (scanner + parser, modulo two hypotheses on the float renderer / reader),
          patterns (round trip iff no `/` is involved; counterexamples), dates (no literal).
  Part 7: (nested) lists of scalars through scanner AND parser: `roundtrip_data`.

  What is proved of "evalLit (parse (scan (render v))) = v for all data values v":
    scan ∘ render and parse ∘ scan ∘ render for NULL, booleans, ints (≤ 4300 digits), strings,
    patterns without `/`, and arbitrarily nested lists of NULL / boolean / int / string;
    decimals under hypotheses.  Not proved: sets and maps beyond the canonical-order theorems of
    part 1 (neither their tokens nor their parse), decimals unconditionally, and the evaluation
    step (the heap-based `Eval.eval` is not touched here; `Node.lit v` evaluates to `v` and
    `Node.list` to a fresh list of its items by the defining equations of `eval`).
    Dates and patterns containing `/` next to a delimiter provably do NOT round-trip.
-/
import CklVerif.Lemmas.C08Lexer
import CklVerif.Lemmas.C08Parser
import CklVerif.Lemmas.C08ParseList
import CklVerif.Lemmas.C08Render
import CklVerif.Model.Front
namespace Ckl.C08
open Ckl Ckl.Lexer

variable (dr : DecRenderer)

/-! ## Part 1: canonical rendering -/

/-- **render_set_perm**: two hash orders of the same (pairwise different, same-kind) elements
    give the same set value, hence the same text. -/
theorem render_set_perm {xs ys : List Val} (hp : xs.Perm ys) (hk : xs.Pairwise SameKind)
    (hne : xs.Pairwise (fun x y => veq x y = false)) :
    renderWith dr (mkSet dr xs) = renderWith dr (mkSet dr ys) := by
  rw [C07.mkSet_perm dr hp hk hne]

/-- the enumeration order of the entries does not depend on the insertion order (entries with
    pairwise different, same-kind keys) -/
theorem sortedEntries_perm {xs ys : List (Val × Val)}
    (hk : (xs.map Prod.fst).Pairwise SameKind)
    (hne : (xs.map Prod.fst).Pairwise (fun x y => veq x y = false)) (hp : xs.Perm ys) :
    sortedEntries dr xs = sortedEntries dr ys := sortedEntries_perm_invariant dr hk hne hp

/-- the map value does not depend on the insertion order of entries with pairwise different,
    same-kind keys -/
theorem mkMap_perm {xs ys : List (Val × Val)} (hp : xs.Perm ys)
    (hk : (xs.map Prod.fst).Pairwise SameKind)
    (hne : (xs.map Prod.fst).Pairwise (fun x y => veq x y = false)) :
    mkMap dr xs = mkMap dr ys := mkMap_perm_aux dr hp hk hne

/-- **render_map_perm**: … hence neither does its text. -/
theorem render_map_perm {xs ys : List (Val × Val)} (hp : xs.Perm ys)
    (hk : (xs.map Prod.fst).Pairwise SameKind)
    (hne : (xs.map Prod.fst).Pairwise (fun x y => veq x y = false)) :
    renderWith dr (mkMap dr xs) = renderWith dr (mkMap dr ys) := by
  rw [mkMap_perm dr hp hk hne]

theorem pairwise3 {α} {R : α → α → Prop} {a b c : α} (h1 : R a b) (h2 : R a c) (h3 : R b c) :
    [a, b, c].Pairwise R := by
  refine List.Pairwise.cons ?_ (List.Pairwise.cons ?_ (List.Pairwise.cons ?_ List.Pairwise.nil))
  · intro x hx
    simp only [List.mem_cons, List.not_mem_nil, or_false] at hx
    rcases hx with rfl | rfl <;> assumption
  · intro x hx
    simp only [List.mem_cons, List.not_mem_nil, or_false] at hx
    subst hx; assumption
  · intro x hx; simp at hx

theorem pairwise2 {α} {R : α → α → Prop} {a b : α} (h1 : R a b) : [a, b].Pairwise R := by
  refine List.Pairwise.cons ?_ (List.Pairwise.cons ?_ List.Pairwise.nil)
  · intro x hx
    simp only [List.mem_cons, List.not_mem_nil, or_false] at hx
    subst hx; assumption
  · intro x hx; simp at hx

/-- non-vacuity: the set `{2, 1.5, 1}` in two hash orders -/
example : [Val.int 2, .dec 3 1, .int 1].Perm [.int 1, .int 2, .dec 3 1] ∧
    [Val.int 2, .dec 3 1, .int 1].Pairwise SameKind ∧
    [Val.int 2, .dec 3 1, .int 1].Pairwise (fun x y => veq x y = false) ∧
    mkSet dr [.int 2, .dec 3 1, .int 1] = .set [.int 1, .dec 3 1, .int 2] ∧
    mkSet dr [.int 1, .int 2, .dec 3 1] = .set [.int 1, .dec 3 1, .int 2] :=
  ⟨List.perm_append_comm (l₁ := [Val.int 2, .dec 3 1]) (l₂ := [.int 1]),
   pairwise3 (by simp [SameKind]) (by simp [SameKind]) (by simp [SameKind]), by decide, rfl, rfl⟩

/-- non-vacuity: the map `{'b': 1, 'a': 2}` in two insertion orders -/
example :
    [(Val.str ['b'], Val.int 1), (.str ['a'], .int 2)].Perm [(.str ['a'], .int 2), (.str ['b'], .int 1)] ∧
    ([(Val.str ['b'], Val.int 1), (.str ['a'], .int 2)].map Prod.fst).Pairwise SameKind ∧
    ([(Val.str ['b'], Val.int 1), (.str ['a'], .int 2)].map Prod.fst).Pairwise
      (fun x y => veq x y = false) ∧
    mkMap dr [(.str ['b'], .int 1), (.str ['a'], .int 2)]
      = .map [(.str ['a'], .int 2), (.str ['b'], .int 1)] ∧
    renderWith dr (mkMap dr [(.str ['a'], .int 2), (.str ['b'], .int 1)])
      = ['<','<','<','\'','a','\'',' ','=','>',' ','2',',',' ','\'','b','\'',' ','=','>',' ','1','>','>','>'] := by
  exact ⟨List.Perm.swap _ _ _, pairwise2 (by simp [SameKind]), by decide, rfl, rfl⟩

/-- **render_int**: an int renders as its decimal numeral, with a leading `-` when negative -/
theorem render_int (n : Int) :
    renderWith dr (.int n) =
      if n < 0 then '-' :: Nat.toDigits 10 n.natAbs else Nat.toDigits 10 n.natAbs := by
  simp [renderWith, renderInt, natDigits]

/-- … and never contains a decimal point -/
theorem render_int_no_point (n : Int) : '.' ∉ renderWith dr (.int n) := by
  rw [render_int]
  split
  · intro h
    rcases List.mem_cons.mp h with h | h
    · revert h; decide
    · exact natDigits_no_point _ h
  · exact natDigits_no_point _

/-- **render_dec_has_point**: if the decimal renderer always writes a decimal point (Python's
    `ValueDecimal.__repr__` does), the text of a decimal contains one … -/
theorem render_dec_has_point (hdr : ∀ m e, '.' ∈ dr m e) (m : Int) (e : Nat) :
    '.' ∈ renderWith dr (.dec m e) := by
  simp only [renderWith]; exact hdr m e

/-- … so an int and a decimal never have the same text, even if they are equal as numbers
    (`1` vs `1.0`) -/
theorem render_int_ne_dec (hdr : ∀ m e, '.' ∈ dr m e) (n m : Int) (e : Nat) :
    renderWith dr (.int n) ≠ renderWith dr (.dec m e) := by
  intro h
  exact render_int_no_point dr n (h ▸ render_dec_has_point dr hdr m e)

/-- non-vacuity: the model's `decRepr` always writes a decimal point -/
theorem decRepr_point : ∀ m e, '.' ∈ decRepr m e := decRepr_has_point

theorem render_int_ne_dec_decRepr (n m : Int) (e : Nat) : render (.int n) ≠ render (.dec m e) :=
  render_int_ne_dec decRepr decRepr_point n m e

example : render (.int 1) = ['1'] ∧ render (.int (-12)) = ['-', '1', '2'] ∧
    veq (.int 1) (.dec 1 0) = true := by decide

/-! ## Part 2: string literals through the scanner

  All scanner theorems are stated for an arbitrary configuration `σ` at a token boundary (state 0,
  empty token buffer — every reachable configuration in state 0 has an empty buffer, see
  `C14.boundary_token_empty`), any line / column / offset, any tokens emitted so far, and an
  arbitrary continuation `rest` of the input: "`run name σ (text ++ rest) = run name σ' rest`
  with `σ'.core = σ.core`" says that after the literal the scan continues on `rest` from a
  token boundary exactly as it would have without the literal, with one more token in `out`
  (`out` is most-recent-first). -/

/-- **string_token_roundtrip**: for every string `s` (any code points: quotes, backslashes, control
    characters, `x` after a backslash, `#`, `"`, non-ASCII …) the text `'` `escapeStr s` `'`
    makes the scanner emit exactly one token, the `string` token with value `s`, carrying the line
    and offset of the opening quote, and leaves it at a token boundary on the same line. -/
theorem string_token_roundtrip (name : String) (σ : LexSt) (h0 : σ.core.state = .s0)
    (htok : σ.core.token = []) (s rest : List Char) :
    ∃ σ' col, run name σ ('\'' :: (escapeStr s ++ ['\'']) ++ rest) = run name σ' rest ∧
      σ'.core = σ.core ∧
      σ'.out = (⟨s, .string, ⟨name, σ.line, col⟩⟩, σ.pos) :: σ.out ∧ σ'.line = σ.line := by
  obtain ⟨σ', col, hr, hk, ho, hl⟩ := run_string_literal (name := name) h0 htok s
  exact ⟨σ', col, run_append_ok _ hr, hk, ho, hl⟩

/-- (value, type) sequence of a scan, `none` for a syntax error (for the examples) -/
def scanTV (s : List Char) (name : String) : Option (List (List Char × TokType)) :=
  match scan s name with
  | .ok l => some (l.map tv)
  | .error _ => none

/-- non-vacuity of the boundary hypotheses: the initial configuration -/
example : ({} : LexSt).core.state = .s0 ∧ ({} : LexSt).core.token = [] := ⟨rfl, rfl⟩

/-- finishing a scan: trailing whitespace (and the blank `scan` appends) after a token boundary -/
theorem scan_finish {name : String} {txt w : List Char} {σ' : LexSt}
    (hw : ∀ c ∈ w, c ∈ [' ', '\t', '\r', '\n'])
    (hr : run name {} (txt ++ (w ++ [' '])) = run name σ' (w ++ [' '])) (h0 : σ'.core.state = .s0) :
    scan (txt ++ w) name = .ok (σ'.out.reverse.map Prod.fst) := by
  have hws : AllWs (w ++ [' ']) := by
    intro c hc
    rcases List.mem_append.mp hc with h | h
    · exact hw c h
    · simp only [List.mem_singleton] at h; subst h; decide
  obtain ⟨σ2, hr2, _, ho2⟩ := run_filler (name := name) (filler_of_allWs hws) h0
  unfold scan scanWithOffsets
  rw [List.append_assoc, hr, hr2]
  simp only [ho2]

example : ∀ c ∈ [' ', '\n', '\t'], c ∈ [' ', '\t', '\r', '\n'] := by decide

/-- the literal alone (followed by any whitespace) scans to the single string token -/
theorem scan_string_literal (name : String) (s w : List Char)
    (hw : ∀ c ∈ w, c ∈ [' ', '\t', '\r', '\n']) :
    ∃ col, scan ('\'' :: (escapeStr s ++ ['\'']) ++ w) name = .ok [⟨s, .string, ⟨name, 1, col⟩⟩] := by
  obtain ⟨σ', col, hr, hk, ho, _⟩ := string_token_roundtrip name {} rfl rfl s (w ++ [' '])
  refine ⟨col, ?_⟩
  rw [scan_finish hw hr (by rw [hk]), ho]
  rfl

/-- non-vacuity: a string with a backslash followed by `x41`, a quote, a newline, a tab, a carriage
    return, `#`, `"`, `/`, `{`, NUL and `é`, between two other tokens -/
example :
    escapeStr ['\\', 'x', '4', '1', '\'', '\n', '\t', '\r', '#', '"', '/', '{', '\x00', 'é']
      = ['\\', '\\', 'x', '4', '1', '\\', '\'', '\\', 'n', '\\', 't', '\\', 'r', '#', '"', '/',
      '{', '\x00', 'é'] ∧
    scanTV (['a', ' '] ++ ('\'' :: (escapeStr
        ['\\', 'x', '4', '1', '\'', '\n', '\t', '\r', '#', '"', '/', '{', '\x00', 'é'] ++ ['\'']))
        ++ [';', 'b']) "f"
      = some [(['a'], .identifier),
          (['\\', 'x', '4', '1', '\'', '\n', '\t', '\r', '#', '"', '/', '{', '\x00', 'é'], .string),
          ([';'], .interpunction), (['b'], .identifier)] := by
  decide

/-! ## Part 3: int literals -/

/-- **int_token_roundtrip**: the numeral of a non-negative int followed by a number terminator `t`
    (`(` `)` `[` `]` `<` `>` `=` `!` blank tab newline CR `+` `-` `*` `/` `%` `,` `;` `#`) makes
    the scanner emit the `int` token whose value is the numeral (`0` is the numeral `0`), with the
    line and offset of the first digit; `t` is then read at a token boundary. -/
theorem int_token_roundtrip (name : String) (σ : LexSt) (h0 : σ.core.state = .s0)
    (htok : σ.core.token = []) (n : Int) (hn : 0 ≤ n) (t : Char) (ht : t ∈ numEnd) (rest : List Char) :
    ∃ σ' col, run name σ (renderInt n ++ t :: rest) = run name σ' (t :: rest) ∧ σ'.core = σ.core ∧
      σ'.out = (⟨Nat.toDigits 10 n.toNat, .int, ⟨name, σ.line, col⟩⟩, σ.pos) :: σ.out ∧
      σ'.line = σ.line := by
  have h1 : renderInt n = Nat.toDigits 10 n.toNat := by
    unfold renderInt natDigits
    rw [if_neg (by omega)]
    congr 1
    omega
  rw [h1]
  exact run_nat_literal h0 htok n.toNat ht rest

/-- **neg_int_tokens_roundtrip**: the text of a negative int, `-` followed by the numeral of `|n|`,
    makes the scanner emit the operator token `-` and then the `int` token of `|n|`. -/
theorem neg_int_tokens_roundtrip (name : String) (σ : LexSt) (h0 : σ.core.state = .s0)
    (htok : σ.core.token = []) (n : Int) (hn : n < 0) (t : Char) (ht : t ∈ numEnd) (rest : List Char) :
    ∃ σ' c1 c2 o2, run name σ (renderInt n ++ t :: rest) = run name σ' (t :: rest) ∧
      σ'.core = σ.core ∧
      σ'.out = (⟨Nat.toDigits 10 n.natAbs, .int, ⟨name, σ.line, c2⟩⟩, o2) ::
               (⟨['-'], .operator, ⟨name, σ.line, c1⟩⟩, σ.pos) :: σ.out ∧
      σ'.line = σ.line := by
  have h1 : renderInt n = '-' :: Nat.toDigits 10 n.natAbs := by
    unfold renderInt natDigits; rw [if_pos hn]
  have hall := toDigits_mem_digits n.natAbs
  cases hds : Nat.toDigits 10 n.natAbs with
  | nil => exact absurd hds Nat.toDigits_ne_nil
  | cons d ds =>
    have hd : d ∈ digits := hall d (by rw [hds]; simp)
    have hd1 : d ≠ '=' := by intro e; subst e; revert hd; decide
    have hd2 : d ≠ '>' := by intro e; subst e; revert hd; decide
    obtain ⟨σ1, c1, hr1, hk1, ho1, hl1⟩ := run_minus (name := name) h0 htok hd1 hd2 (ds ++ t :: rest)
    obtain ⟨σ2, c2, hr2, hk2, ho2, hl2⟩ := run_nat_literal (name := name) (σ := σ1)
      (by rw [hk1]; exact h0) (by rw [hk1]; exact htok) n.natAbs ht rest
    refine ⟨σ2, c1, c2, σ1.pos, ?_, hk2.trans hk1, ?_, hl2.trans hl1⟩
    · rw [h1, hds]
      rw [hds] at hr2
      simp only [List.cons_append] at hr1 hr2 ⊢
      rw [hr1, hr2]
    · rw [ho2, ho1, hl1, hds]

/-- scanning the text of an int alone (followed by any whitespace) -/
theorem scan_int_nonneg (name : String) (n : Int) (hn : 0 ≤ n) (w : List Char)
    (hw : ∀ c ∈ w, c ∈ [' ', '\t', '\r', '\n']) :
    ∃ col, scan (renderInt n ++ w) name = .ok [⟨Nat.toDigits 10 n.toNat, .int, ⟨name, 1, col⟩⟩] := by
  obtain ⟨t, tl, htl, ht⟩ : ∃ t tl, w ++ [' '] = t :: tl ∧ t ∈ numEnd := by
    cases w with
    | nil => exact ⟨' ', [], rfl, by decide⟩
    | cons a w' => exact ⟨a, w' ++ [' '], rfl, whitespace_numEnd a (hw a (by simp))⟩
  obtain ⟨σ', col, hr, hk, ho, _⟩ := int_token_roundtrip name {} rfl rfl n hn t ht tl
  refine ⟨col, ?_⟩
  rw [← htl] at hr
  rw [scan_finish hw hr (by rw [hk]), ho]
  rfl

theorem scan_int_neg (name : String) (n : Int) (hn : n < 0) (w : List Char)
    (hw : ∀ c ∈ w, c ∈ [' ', '\t', '\r', '\n']) :
    ∃ c1 c2, scan (renderInt n ++ w) name =
      .ok [⟨['-'], .operator, ⟨name, 1, c1⟩⟩, ⟨Nat.toDigits 10 n.natAbs, .int, ⟨name, 1, c2⟩⟩] := by
  obtain ⟨t, tl, htl, ht⟩ : ∃ t tl, w ++ [' '] = t :: tl ∧ t ∈ numEnd := by
    cases w with
    | nil => exact ⟨' ', [], rfl, by decide⟩
    | cons a w' => exact ⟨a, w' ++ [' '], rfl, whitespace_numEnd a (hw a (by simp))⟩
  obtain ⟨σ', c1, c2, o2, hr, hk, ho, _⟩ := neg_int_tokens_roundtrip name {} rfl rfl n hn t ht tl
  refine ⟨c1, c2, ?_⟩
  rw [← htl] at hr
  rw [scan_finish hw hr (by rw [hk]), ho]
  rfl

/-- non-vacuity: `0`, `1203` and `-45` before the terminators `)`, `,` and `]` -/
example : (')' ∈ numEnd ∧ ',' ∈ numEnd ∧ ']' ∈ numEnd) ∧
    scanTV (['(', '['] ++ renderInt 0 ++ [')', ' '] ++ renderInt 1203 ++ [','] ++ renderInt (-45) ++ [']'])
        "f"
      = some [(['('], .interpunction), (['['], .interpunction), (['0'], .int), ([')'], .interpunction),
             (['1', '2', '0', '3'], .int), ([','], .interpunction), (['-'], .operator),
             (['4', '5'], .int), ([']'], .interpunction)] := by
  decide

/-! ## Part 4: scalars through scanner and parser -/

theorem parseScript_eq (src : List Char) (file : String) :
    parseScript src file = (match scan src file with
      | .ok toks => Parser.parse file toks
      | .error e => .error e) := by
  unfold parseScript parseScriptWith Parser.parse
  cases scan src file <;> rfl

theorem whitespace_wordEnd : ∀ c ∈ whitespace, c ∈ wordEnd := by decide

/-- a word alone (followed by any whitespace) scans to the single word token -/
theorem scan_word (name : String) (c : Char) (cs : List Char) (hc : WordStart c)
    (hcs : ∀ x ∈ cs, WordChar x) (w : List Char) (hw : ∀ c ∈ w, c ∈ [' ', '\t', '\r', '\n']) :
    ∃ col, scan (c :: cs ++ w) name = .ok [⟨c :: cs, wordType (c :: cs), ⟨name, 1, col⟩⟩] := by
  obtain ⟨t, tl, htl, ht⟩ : ∃ t tl, w ++ [' '] = t :: tl ∧ t ∈ wordEnd := by
    cases w with
    | nil => exact ⟨' ', [], rfl, by decide⟩
    | cons a w' => exact ⟨a, w' ++ [' '], rfl, whitespace_wordEnd a (hw a (by simp))⟩
  obtain ⟨σ', col, hr, hk, ho, _⟩ := run_word (name := name) (σ := {}) rfl rfl hc hcs ht tl
  refine ⟨col, ?_⟩
  rw [← htl] at hr
  have hr' : run name {} (c :: cs ++ (w ++ [' '])) = run name σ' (w ++ [' ']) := by simpa using hr
  rw [scan_finish hw hr' (by rw [hk]), ho]
  rfl

example : WordStart 'N' ∧ (∀ x ∈ ['U', 'L', 'L'], WordChar x) ∧ wordType ['N', 'U', 'L', 'L'] = .identifier ∧
    wordType ['T', 'R', 'U', 'E'] = .boolean := by decide

/-- **roundtrip_null**: `NULL` prints as the word `NULL`, which is not a literal of the grammar
    but an identifier (bound to NULL in the base environment): it parses to that identifier -/
theorem roundtrip_null (file : String) (w : List Char) (hw : ∀ c ∈ w, c ∈ [' ', '\t', '\r', '\n']) :
    ∃ pos, parseScript (renderWith dr .null ++ w) file = .ok (.ident "NULL" pos) := by
  obtain ⟨col, hs⟩ := scan_word file 'N' ['U', 'L', 'L'] (by decide) (by decide) w hw
  refine ⟨⟨file, 1, col⟩, ?_⟩
  rw [parseScript_eq]
  simp only [renderWith]
  rw [hs]
  show Parser.parse file [_] = _
  exact C01.parse_identifier file ⟨['N', 'U', 'L', 'L'], .identifier, ⟨file, 1, col⟩⟩ rfl

/-- **roundtrip_bool**: `TRUE` / `FALSE` parse back to the boolean literal -/
theorem roundtrip_bool (file : String) (b : Bool) (w : List Char)
    (hw : ∀ c ∈ w, c ∈ [' ', '\t', '\r', '\n']) :
    ∃ pos, parseScript (renderWith dr (.bool b) ++ w) file = .ok (.lit (.bool b) pos) := by
  cases b with
  | true =>
    obtain ⟨col, hs⟩ := scan_word file 'T' ['R', 'U', 'E'] (by decide) (by decide) w hw
    refine ⟨⟨file, 1, col⟩, ?_⟩
    rw [parseScript_eq]
    simp only [renderWith]
    rw [hs]
    show Parser.parse file [_] = _
    exact C01.parse_boolean file ⟨['T', 'R', 'U', 'E'], .boolean, ⟨file, 1, col⟩⟩ rfl
  | false =>
    obtain ⟨col, hs⟩ := scan_word file 'F' ['A', 'L', 'S', 'E'] (by decide) (by decide) w hw
    refine ⟨⟨file, 1, col⟩, ?_⟩
    rw [parseScript_eq]
    simp only [renderWith]
    rw [hs]
    show Parser.parse file [_] = _
    exact C01.parse_boolean file ⟨['F', 'A', 'L', 'S', 'E'], .boolean, ⟨file, 1, col⟩⟩ rfl

/-- **roundtrip_string**: printing a string and parsing the text gives the literal back -/
theorem roundtrip_string (file : String) (s w : List Char)
    (hw : ∀ c ∈ w, c ∈ [' ', '\t', '\r', '\n']) :
    ∃ pos, parseScript (renderWith dr (.str s) ++ w) file = .ok (.lit (.str s) pos) := by
  obtain ⟨col, hs⟩ := scan_string_literal file s w hw
  refine ⟨⟨file, 1, col⟩, ?_⟩
  rw [parseScript_eq]
  simp only [renderWith]
  rw [show '\'' :: (escapeStr s ++ ['\'']) ++ w = '\'' :: (escapeStr s ++ ['\'']) ++ w from rfl, hs]
  show Parser.parse file [_] = _
  exact C01.parse_string file _ rfl

/-- **roundtrip_int_nonneg**: … a non-negative int (whose numeral stays within CPython's limit of
    4300 digits for `int(str)`; `str(int)` has the same limit) -/
theorem roundtrip_int_nonneg (file : String) (n : Int) (hn : 0 ≤ n)
    (hlim : (Nat.toDigits 10 n.toNat).length ≤ 4300) (w : List Char)
    (hw : ∀ c ∈ w, c ∈ [' ', '\t', '\r', '\n']) :
    ∃ pos, parseScript (renderWith dr (.int n) ++ w) file = .ok (.lit (.int n) pos) := by
  obtain ⟨col, hs⟩ := scan_int_nonneg file n hn w hw
  refine ⟨⟨file, 1, col⟩, ?_⟩
  rw [parseScript_eq]
  simp only [renderWith]
  rw [hs]
  have := C01.parse_int file ⟨Nat.toDigits 10 n.toNat, .int, ⟨file, 1, col⟩⟩ n.toNat rfl
    (parseIntLit_toDigits _ hlim)
  show Parser.parse file [_] = _
  rw [this, Int.toNat_of_nonneg hn]

/-- **roundtrip_int_neg**: … a negative int: the scanner yields `-` and the numeral, and
    `parse_unary_expr` folds the sign into the literal -/
theorem roundtrip_int_neg (file : String) (n : Int) (hn : n < 0)
    (hlim : (Nat.toDigits 10 n.natAbs).length ≤ 4300) (w : List Char)
    (hw : ∀ c ∈ w, c ∈ [' ', '\t', '\r', '\n']) :
    ∃ pos, parseScript (renderWith dr (.int n) ++ w) file = .ok (.lit (.int n) pos) := by
  obtain ⟨c1, c2, hs⟩ := scan_int_neg file n hn w hw
  refine ⟨⟨file, 1, c2⟩, ?_⟩
  rw [parseScript_eq]
  simp only [renderWith]
  rw [hs]
  have := parse_neg_int file ⟨['-'], .operator, ⟨file, 1, c1⟩⟩
    ⟨Nat.toDigits 10 n.natAbs, .int, ⟨file, 1, c2⟩⟩ n.natAbs rfl rfl rfl (parseIntLit_toDigits _ hlim)
  show Parser.parse file [_, _] = _
  rw [this]
  congr 3
  omega

/-- **roundtrip_int**: every int whose numeral has at most 4300 digits -/
theorem roundtrip_int (file : String) (n : Int) (hlim : (Nat.toDigits 10 n.natAbs).length ≤ 4300)
    (w : List Char) (hw : ∀ c ∈ w, c ∈ [' ', '\t', '\r', '\n']) :
    ∃ pos, parseScript (renderWith dr (.int n) ++ w) file = .ok (.lit (.int n) pos) := by
  by_cases hn : n < 0
  · exact roundtrip_int_neg dr file n hn hlim w hw
  · have h1 : n.toNat = n.natAbs := by omega
    exact roundtrip_int_nonneg dr file n (by omega) (by rw [h1]; exact hlim) w hw

/-- the digit bound is needed: a numeral of more than 4300 digits is rejected by the parser
    ("Invalid int literal", CPython's `int(str)` limit; CPython's `str(int)` has the same limit,
    so `repr` of such an int already raises — `renderInt` does not model that) -/
theorem parseIntLit_too_long (cs : List Char) (h : cs.length > 4300) :
    Parser.parseIntLit cs = none := by
  simp [Parser.parseIntLit, h]

example : (List.replicate 4301 '1').length > 4300 := by rw [List.length_replicate]; omega

/-- non-vacuity of the digit bound, and the literal followed by the blank of the task statement -/
example : ∃ pos, parseScript (renderInt (-120) ++ [' ']) "f" = .ok (.lit (.int (-120)) pos) :=
  roundtrip_int (fun _ _ => []) "f" (-120) (by decide) [' '] (by simp)

example : ∃ pos, parseScript (render (.int 0) ++ []) "f" = .ok (.lit (.int 0) pos) :=
  roundtrip_int decRepr "f" 0 (by decide) [] (by simp)

/-! ## Part 5: (nested) lists of scalars through the scanner -/

/-- (value, type) of a token -/
abbrev TV := List Char × TokType

/-- the (value, type) sequence emitted so far, in chronological order -/
def outTV (σ : LexSt) : List TV := σ.out.reverse.map (fun p => tv p.1)

theorem outTV_push {σ σ' : LexSt} {tok : Token} {o : Nat} (h : σ'.out = (tok, o) :: σ.out) :
    outTV σ' = outTV σ ++ [tv tok] := by
  simp [outTV, h]

mutual
  /-- the data values built from NULL, booleans, ints, strings and lists -/
  def IsData : Val → Prop
    | .null => True
    | .bool _ => True
    | .int _ => True
    | .str _ => True
    | .list xs => IsDataL xs
    | _ => False
  def IsDataL : List Val → Prop
    | [] => True
    | x :: xs => IsData x ∧ IsDataL xs
end

def ip : TokType := .interpunction

def intToks (n : Int) : List TV :=
  if n < 0 then [(['-'], .operator), (Nat.toDigits 10 n.natAbs, .int)]
  else [(Nat.toDigits 10 n.natAbs, .int)]

mutual
  /-- the tokens (value, type) that the text of a data value should scan to -/
  def dataToks : Val → List TV
    | .null => [(['N', 'U', 'L', 'L'], .identifier)]
    | .bool true => [(['T', 'R', 'U', 'E'], .boolean)]
    | .bool false => [(['F', 'A', 'L', 'S', 'E'], .boolean)]
    | .int n => intToks n
    | .str s => [(s, .string)]
    | .list xs => (['['], ip) :: (dataToksL xs ++ [([']'], ip)])
    | _ => []
  /-- elements separated by `,` -/
  def dataToksL : List Val → List TV
    | [] => []
    | x :: xs => dataToks x ++ dataToksT xs
  /-- elements each preceded by `,` -/
  def dataToksT : List Val → List TV
    | [] => []
    | y :: ys => ([','], ip) :: (dataToks y ++ dataToksT ys)
end

/-- `", " + repr(y)` for every element -/
def renderT (ys : List Val) : List Char := ys.flatMap (fun y => ',' :: ' ' :: renderWith dr y)

theorem joinSep_renderL_cons (x : Val) (xs : List Val) :
    joinSep [',', ' '] (renderL dr (x :: xs)) = renderWith dr x ++ renderT dr xs := by
  induction xs generalizing x with
  | nil => simp [renderL, joinSep, renderT]
  | cons y ys ih =>
    have := ih y
    simp only [renderL] at this ⊢
    simp only [joinSep, this, renderT, List.flatMap_cons]
    simp

theorem renderT_head (ys : List Val) (tail : List Char) :
    ∃ t tl, renderT dr ys ++ ']' :: tail = t :: tl ∧ t ∈ numEnd := by
  cases ys with
  | nil => exact ⟨']', tail, rfl, by decide⟩
  | cons y ys => exact ⟨',', _, by simp [renderT, List.flatMap_cons]; rfl, by decide⟩

theorem numEnd_wordEnd : ∀ c ∈ numEnd, c ∈ wordEnd := by decide

/-- scalars: one lemma for all kinds, before any number terminator -/
theorem scalar_tokens (name : String) (v : Val)
    (hv : v = .null ∨ (∃ b, v = .bool b) ∨ (∃ n, v = .int n) ∨ (∃ s, v = .str s))
    (σ : LexSt) (h0 : σ.core.state = .s0) (htok : σ.core.token = []) (t : Char) (ht : t ∈ numEnd)
    (tail : List Char) :
    ∃ σ', run name σ (renderWith dr v ++ t :: tail) = run name σ' (t :: tail) ∧ σ'.core = σ.core ∧
      outTV σ' = outTV σ ++ dataToks v := by
  have htw := numEnd_wordEnd t ht
  rcases hv with rfl | ⟨b, rfl⟩ | ⟨n, rfl⟩ | ⟨s, rfl⟩
  · obtain ⟨σ', col, hr, hk, ho, _⟩ := run_word (name := name) h0 htok (c := 'N') (cs := ['U', 'L', 'L'])
      (by decide) (by decide) htw tail
    exact ⟨σ', by simpa [renderWith] using hr, hk, by rw [outTV_push ho]; rfl⟩
  · cases b with
    | true =>
      obtain ⟨σ', col, hr, hk, ho, _⟩ := run_word (name := name) h0 htok (c := 'T')
        (cs := ['R', 'U', 'E']) (by decide) (by decide) htw tail
      exact ⟨σ', by simpa [renderWith] using hr, hk, by rw [outTV_push ho]; rfl⟩
    | false =>
      obtain ⟨σ', col, hr, hk, ho, _⟩ := run_word (name := name) h0 htok (c := 'F')
        (cs := ['A', 'L', 'S', 'E']) (by decide) (by decide) htw tail
      exact ⟨σ', by simpa [renderWith] using hr, hk, by rw [outTV_push ho]; rfl⟩
  · by_cases hn : n < 0
    · obtain ⟨σ', c1, c2, o2, hr, hk, ho, _⟩ := neg_int_tokens_roundtrip name σ h0 htok n hn t ht tail
      refine ⟨σ', by simpa [renderWith] using hr, hk, ?_⟩
      simp [outTV, ho, dataToks, intToks, hn, tv]
    · obtain ⟨σ', col, hr, hk, ho, _⟩ := int_token_roundtrip name σ h0 htok n (by omega) t ht tail
      refine ⟨σ', by simpa [renderWith] using hr, hk, ?_⟩
      have h1 : n.toNat = n.natAbs := by omega
      rw [outTV_push ho]
      simp [dataToks, intToks, hn, tv, h1]
  · obtain ⟨σ', col, hr, hk, ho, _⟩ := string_token_roundtrip name σ h0 htok s (t :: tail)
    refine ⟨σ', by simpa [renderWith] using hr, hk, ?_⟩
    rw [outTV_push ho]; rfl

theorem feed_ip_tv {name : String} {σ : LexSt} (h0 : σ.core.state = .s0) {c : Char}
    (hc : c ∈ ['(', ')', '[', ']', ',', ';']) :
    ∃ σ', feed name σ c = .ok σ' ∧ σ'.core = σ.core ∧ outTV σ' = outTV σ ++ [([c], ip)] := by
  obtain ⟨σ', col, hf, hk, ho, _⟩ := feed_ip (name := name) h0 hc
  exact ⟨σ', hf, hk, by rw [outTV_push ho]; rfl⟩

theorem feed_blank_tv {name : String} {σ : LexSt} (h0 : σ.core.state = .s0) :
    ∃ σ', feed name σ ' ' = .ok σ' ∧ σ'.core = σ.core ∧ outTV σ' = outTV σ :=
  ⟨_, feed_ws h0 (by decide), rfl, rfl⟩

mutual
  /-- **list_tokens_roundtrip** (general form, any context): the text of a data value built from
      NULL, booleans, ints, strings and (nested) lists, followed by a number terminator `t`, makes
      the scanner emit exactly the tokens `dataToks v`; `t` is then read at a token boundary. -/
  theorem data_tokens (name : String) : ∀ (v : Val), IsData v → ∀ (σ : LexSt),
      σ.core.state = .s0 → σ.core.token = [] → ∀ (t : Char), t ∈ numEnd → ∀ (tail : List Char),
      ∃ σ', run name σ (renderWith dr v ++ t :: tail) = run name σ' (t :: tail) ∧ σ'.core = σ.core ∧
        outTV σ' = outTV σ ++ dataToks v
    | .null, _, σ, h0, htok, t, ht, tail =>
      scalar_tokens dr name .null (Or.inl rfl) σ h0 htok t ht tail
    | .bool b, _, σ, h0, htok, t, ht, tail =>
      scalar_tokens dr name (.bool b) (Or.inr (Or.inl ⟨b, rfl⟩)) σ h0 htok t ht tail
    | .int n, _, σ, h0, htok, t, ht, tail =>
      scalar_tokens dr name (.int n) (Or.inr (Or.inr (Or.inl ⟨n, rfl⟩))) σ h0 htok t ht tail
    | .str s, _, σ, h0, htok, t, ht, tail =>
      scalar_tokens dr name (.str s) (Or.inr (Or.inr (Or.inr ⟨s, rfl⟩))) σ h0 htok t ht tail
    | .list xs, hv, σ, h0, htok, t, ht, tail => by
      obtain ⟨σ1, hf1, hk1, ho1⟩ := feed_ip_tv (name := name) (c := '[') h0 (by decide)
      obtain ⟨σ2, hr2, hk2, ho2⟩ := dataL_tokens name xs (by simpa [IsData] using hv) σ1
        (by rw [hk1]; exact h0) (by rw [hk1]; exact htok) (t :: tail)
      obtain ⟨σ3, hf3, hk3, ho3⟩ := feed_ip_tv (name := name) (σ := σ2) (c := ']')
        (by rw [hk2, hk1]; exact h0) (by decide)
      refine ⟨σ3, ?_, by rw [hk3, hk2, hk1], ?_⟩
      · simp only [renderWith, List.cons_append, List.append_assoc, List.nil_append]
        rw [run_cons_ok _ hf1, hr2, run_cons_ok _ hf3]
      · rw [ho3, ho2, ho1]; simp [dataToks]
    | .dec _ _, hv, _, _, _, _, _, _ => by simp [IsData] at hv
    | .pat _, hv, _, _, _, _, _, _ => by simp [IsData] at hv
    | .date _, hv, _, _, _, _, _, _ => by simp [IsData] at hv
    | .set _, hv, _, _, _, _, _, _ => by simp [IsData] at hv
    | .map _, hv, _, _, _, _, _, _ => by simp [IsData] at hv
  /-- the comma-separated elements of a list, up to the closing bracket -/
  theorem dataL_tokens (name : String) : ∀ (xs : List Val), IsDataL xs → ∀ (σ : LexSt),
      σ.core.state = .s0 → σ.core.token = [] → ∀ (tail : List Char),
      ∃ σ', run name σ (joinSep [',', ' '] (renderL dr xs) ++ ']' :: tail) = run name σ' (']' :: tail) ∧
        σ'.core = σ.core ∧ outTV σ' = outTV σ ++ dataToksL xs
    | [], _, σ, _, _, tail => ⟨σ, by simp [renderL, joinSep], rfl, by simp [dataToksL]⟩
    | x :: xs, hv, σ, h0, htok, tail => by
      obtain ⟨hx, hxs⟩ : IsData x ∧ IsDataL xs := by simpa [IsDataL] using hv
      obtain ⟨t, tl, htl, ht⟩ := renderT_head dr xs tail
      obtain ⟨σ1, hr1, hk1, ho1⟩ := data_tokens name x hx σ h0 htok t ht tl
      obtain ⟨σ2, hr2, hk2, ho2⟩ := dataT_tokens name xs hxs σ1 (by rw [hk1]; exact h0)
        (by rw [hk1]; exact htok) tail
      refine ⟨σ2, ?_, by rw [hk2, hk1], ?_⟩
      · rw [joinSep_renderL_cons, List.append_assoc, htl, hr1, ← htl, hr2]
      · rw [ho2, ho1]; simp [dataToksL]
  /-- the elements after the first, each preceded by `, ` -/
  theorem dataT_tokens (name : String) : ∀ (ys : List Val), IsDataL ys → ∀ (σ : LexSt),
      σ.core.state = .s0 → σ.core.token = [] → ∀ (tail : List Char),
      ∃ σ', run name σ (renderT dr ys ++ ']' :: tail) = run name σ' (']' :: tail) ∧
        σ'.core = σ.core ∧ outTV σ' = outTV σ ++ dataToksT ys
    | [], _, σ, _, _, tail => ⟨σ, by simp [renderT], rfl, by simp [dataToksT]⟩
    | y :: ys, hv, σ, h0, htok, tail => by
      obtain ⟨hy, hys⟩ : IsData y ∧ IsDataL ys := by simpa [IsDataL] using hv
      obtain ⟨σ1, hf1, hk1, ho1⟩ := feed_ip_tv (name := name) (c := ',') h0 (by decide)
      obtain ⟨σ2, hf2, hk2, ho2⟩ := feed_blank_tv (name := name) (σ := σ1) (by rw [hk1]; exact h0)
      obtain ⟨t, tl, htl, ht⟩ := renderT_head dr ys tail
      obtain ⟨σ3, hr3, hk3, ho3⟩ := data_tokens name y hy σ2 (by rw [hk2, hk1]; exact h0)
        (by rw [hk2, hk1]; exact htok) t ht tl
      obtain ⟨σ4, hr4, hk4, ho4⟩ := dataT_tokens name ys hys σ3 (by rw [hk3, hk2, hk1]; exact h0)
        (by rw [hk3, hk2, hk1]; exact htok) tail
      refine ⟨σ4, ?_, by rw [hk4, hk3, hk2, hk1], ?_⟩
      · have e : renderT dr (y :: ys) ++ ']' :: tail
            = ',' :: ' ' :: (renderWith dr y ++ (renderT dr ys ++ ']' :: tail)) := by
          simp [renderT, List.flatMap_cons]
        rw [e, run_cons_ok _ hf1, run_cons_ok _ hf2, htl, hr3, ← htl, hr4]
      · rw [ho4, ho3, ho2, ho1]; simp [dataToksT]
end

/-- **list_tokens_roundtrip**: the text of a (nested) list of NULLs, booleans, ints and strings,
    alone or followed by whitespace, scans without error to `[`, the tokens of the elements
    separated by `,`, and `]`. -/
theorem list_tokens_roundtrip (name : String) (v : Val) (hv : IsData v) (w : List Char)
    (hw : ∀ c ∈ w, c ∈ [' ', '\t', '\r', '\n']) :
    scanTV (renderWith dr v ++ w) name = some (dataToks v) := by
  obtain ⟨t, tl, htl, ht⟩ : ∃ t tl, w ++ [' '] = t :: tl ∧ t ∈ numEnd := by
    cases w with
    | nil => exact ⟨' ', [], rfl, by decide⟩
    | cons a w' => exact ⟨a, w' ++ [' '], rfl, whitespace_numEnd a (hw a (by simp))⟩
  obtain ⟨σ', hr, hk, ho⟩ := data_tokens dr name v hv {} rfl rfl t ht tl
  rw [← htl] at hr
  unfold scanTV
  rw [scan_finish hw hr (by rw [hk])]
  have : outTV σ' = dataToks v := by rw [ho]; rfl
  simp only [← this, outTV, List.map_map]
  rfl

/-- non-vacuity: `[1, -2, 'a\'b', [TRUE, NULL], []]` -/
example :
    IsData (.list [.int 1, .int (-2), .str ['a', '\'', 'b'], .list [.bool true, .null], .list []]) ∧
    render (.list [.int 1, .int (-2), .str ['a', '\'', 'b'], .list [.bool true, .null], .list []])
      = ['[', '1', ',', ' ', '-', '2', ',', ' ', '\'', 'a', '\\', '\'', 'b', '\'', ',', ' ',
         '[', 'T', 'R', 'U', 'E', ',', ' ', 'N', 'U', 'L', 'L', ']', ',', ' ', '[', ']', ']'] ∧
    dataToks (.list [.int 1, .int (-2), .str ['a', '\'', 'b'], .list [.bool true, .null], .list []])
      = [(['['], ip), (['1'], .int), ([','], ip), (['-'], .operator), (['2'], .int), ([','], ip),
         (['a', '\'', 'b'], .string), ([','], ip), (['['], ip), (['T', 'R', 'U', 'E'], .boolean),
         ([','], ip), (['N', 'U', 'L', 'L'], .identifier), ([']'], ip), ([','], ip), (['['], ip),
         ([']'], ip), ([']'], ip)] := by
  refine ⟨by simp [IsData, IsDataL], by decide, by decide⟩

/-! ## Part 6: the other kinds — decimals, patterns, dates

  * decimals: the scanner reads any text `digits⁺ . digits*` back as one `decimal` token with that
    text, and the parser folds a leading `-`; what is NOT proved is that `decRepr` produces such a
    text and that `parseDecimal` (the model of `float(str)`) maps it back to the same double —
    both appear as hypotheses of `roundtrip_dec_partial` / `roundtrip_dec_neg_partial`;
  * patterns: `//s//` round-trips iff `s` is non-empty and contains no `/` (and no newline, which
    only matters for the line bookkeeping): otherwise the scanner ends the pattern early
    (counterexamples below);
  * dates have no literal: the text of a date is a numeral and reads back as an int. -/

/-- **dec_token_roundtrip**: `a.b` with `a` a non-empty digit string and `b` a digit string,
    before a number terminator, scans to the `decimal` token with value `a.b` -/
theorem dec_token_roundtrip (name : String) (σ : LexSt) (h0 : σ.core.state = .s0)
    (htok : σ.core.token = []) (a b : List Char) (hane : a ≠ []) (ha : ∀ c ∈ a, c ∈ digits)
    (hb : ∀ c ∈ b, c ∈ digits) (t : Char) (ht : t ∈ numEnd) (rest : List Char) :
    ∃ σ' col, run name σ (a ++ '.' :: b ++ t :: rest) = run name σ' (t :: rest) ∧ σ'.core = σ.core ∧
      σ'.out = (⟨a ++ '.' :: b, .decimal, ⟨name, σ.line, col⟩⟩, σ.pos) :: σ.out ∧
      σ'.line = σ.line := by
  obtain ⟨σ', col, hr, hk, ho, hl⟩ := run_dec_gen (name := name) h0 htok hane ha hb ht rest
  exact ⟨σ', col, by simpa using hr, hk, ho, hl⟩

/-- the full statement would be `∀ m e, ∃ pos, parseScript (render (.dec m e)) = .ok (.lit (.dec m e) pos)`
    for every double `m / 2^e`; proved here for a non-negative decimal under the two hypotheses
    "the renderer writes `digits⁺ . digits*`" and "`float()` of that text is the same double". -/
theorem roundtrip_dec_partial (file : String) (m : Int) (e : Nat) (a b : List Char)
    (hshape : dr m e = a ++ '.' :: b) (hane : a ≠ []) (ha : ∀ c ∈ a, c ∈ digits)
    (hb : ∀ c ∈ b, c ∈ digits) (hval : Parser.parseDecimal (a ++ '.' :: b) = some (m, e))
    (w : List Char) (hw : ∀ c ∈ w, c ∈ [' ', '\t', '\r', '\n']) :
    ∃ pos, parseScript (renderWith dr (.dec m e) ++ w) file = .ok (.lit (.dec m e) pos) := by
  obtain ⟨t, tl, htl, ht⟩ : ∃ t tl, w ++ [' '] = t :: tl ∧ t ∈ numEnd := by
    cases w with
    | nil => exact ⟨' ', [], rfl, by decide⟩
    | cons x w' => exact ⟨x, w' ++ [' '], rfl, whitespace_numEnd x (hw x (by simp))⟩
  obtain ⟨σ', col, hr, hk, ho, _⟩ := dec_token_roundtrip file {} rfl rfl a b hane ha hb t ht tl
  refine ⟨⟨file, 1, col⟩, ?_⟩
  rw [← htl] at hr
  have hs : scan (a ++ '.' :: b ++ w) file = .ok [⟨a ++ '.' :: b, .decimal, ⟨file, 1, col⟩⟩] := by
    rw [scan_finish hw hr (by rw [hk]), ho]; rfl
  rw [parseScript_eq]
  simp only [renderWith, hshape]
  rw [hs]
  show Parser.parse file [_] = _
  exact C01.parse_decimal file ⟨a ++ '.' :: b, .decimal, ⟨file, 1, col⟩⟩ m e rfl hval

/-- the same for a negative decimal, rendered as `-` followed by the text of `|m| / 2^e` -/
theorem roundtrip_dec_neg_partial (file : String) (m : Int) (e : Nat) (a b : List Char)
    (hshape : dr m e = '-' :: (a ++ '.' :: b)) (hane : a ≠ []) (ha : ∀ c ∈ a, c ∈ digits)
    (hb : ∀ c ∈ b, c ∈ digits) (hval : Parser.parseDecimal (a ++ '.' :: b) = some (-m, e))
    (w : List Char) (hw : ∀ c ∈ w, c ∈ [' ', '\t', '\r', '\n']) :
    ∃ pos, parseScript (renderWith dr (.dec m e) ++ w) file = .ok (.lit (.dec m e) pos) := by
  obtain ⟨t, tl, htl, ht⟩ : ∃ t tl, w ++ [' '] = t :: tl ∧ t ∈ numEnd := by
    cases w with
    | nil => exact ⟨' ', [], rfl, by decide⟩
    | cons x w' => exact ⟨x, w' ++ [' '], rfl, whitespace_numEnd x (hw x (by simp))⟩
  cases ha' : a with
  | nil => exact absurd ha' hane
  | cons d ds =>
    have hd : d ∈ digits := ha d (by rw [ha']; simp)
    have hd1 : d ≠ '=' := by intro h; subst h; revert hd; decide
    have hd2 : d ≠ '>' := by intro h; subst h; revert hd; decide
    obtain ⟨σ1, c1, hr1, hk1, ho1, hl1⟩ := run_minus (name := file) (σ := {}) rfl rfl hd1 hd2
      (ds ++ '.' :: b ++ t :: tl)
    obtain ⟨σ2, c2, hr2, hk2, ho2, _⟩ := dec_token_roundtrip file σ1 (by rw [hk1])
      (by rw [hk1]) a b hane ha hb t ht tl
    have hr : run file {} ('-' :: (a ++ '.' :: b) ++ (w ++ [' '])) = run file σ2 (w ++ [' ']) := by
      rw [htl, ha']
      rw [ha'] at hr2
      simp only [List.cons_append, List.append_assoc] at hr1 hr2 ⊢
      rw [hr1, hr2]
    have hs : scan ('-' :: (a ++ '.' :: b) ++ w) file =
        .ok [⟨['-'], .operator, ⟨file, 1, c1⟩⟩, ⟨a ++ '.' :: b, .decimal, ⟨file, 1, c2⟩⟩] := by
      rw [scan_finish hw hr (by rw [hk2, hk1]), ho2, ho1, hl1]; rfl
    refine ⟨⟨file, 1, c2⟩, ?_⟩
    rw [parseScript_eq]
    simp only [renderWith, hshape]
    rw [hs]
    show Parser.parse file [_, _] = _
    have := parse_neg_dec file ⟨['-'], .operator, ⟨file, 1, c1⟩⟩
      ⟨a ++ '.' :: b, .decimal, ⟨file, 1, c2⟩⟩ (-m) e rfl rfl rfl hval
    rw [this, Int.neg_neg]

/-- non-vacuity: `1.5` is the double `3 / 2^1`, `-0.25` is `-1 / 2^2` -/
example : ∃ pos, parseScript (renderWith (fun _ _ => ['1', '.', '5']) (.dec 3 1) ++ []) "f"
    = .ok (.lit (.dec 3 1) pos) :=
  roundtrip_dec_partial _ "f" 3 1 ['1'] ['5'] rfl (by simp) (by decide) (by decide) (by decide) []
    (by simp)

example : ∃ pos, parseScript (renderWith (fun _ _ => ['-', '0', '.', '2', '5']) (.dec (-1) 2) ++ []) "f"
    = .ok (.lit (.dec (-1) 2) pos) :=
  roundtrip_dec_neg_partial _ "f" (-1) 2 ['0'] ['2', '5'] rfl (by simp) (by decide) (by decide)
    (by decide) [] (by simp)

/-- **pattern_token_roundtrip**: `//s//` for a non-empty `s` without `/` and newline scans to the
    pattern token `//s//` -/
theorem pattern_token_roundtrip (name : String) (σ : LexSt) (h0 : σ.core.state = .s0)
    (htok : σ.core.token = []) (s : List Char) (hne : s ≠ []) (hs : ∀ c ∈ s, c ≠ '/' ∧ c ≠ '\n')
    (rest : List Char) :
    ∃ σ' col, run name σ (renderWith dr (.pat s) ++ rest) = run name σ' rest ∧ σ'.core = σ.core ∧
      σ'.out = (⟨renderWith dr (.pat s), .pattern, ⟨name, σ.line, col⟩⟩, σ.pos) :: σ.out ∧
      σ'.line = σ.line := by
  obtain ⟨σ', col, hr, hk, ho, hl⟩ := run_pattern_literal (name := name) h0 htok s hne hs
  exact ⟨σ', col, by simp only [renderWith]; exact run_append_ok _ hr, hk, ho, hl⟩

/-- **roundtrip_pattern**: such a pattern parses back to the pattern literal (`parseScript` accepts
    every regular expression) -/
theorem roundtrip_pattern (file : String) (s : List Char) (hne : s ≠ [])
    (hs : ∀ c ∈ s, c ≠ '/' ∧ c ≠ '\n') (w : List Char) (hw : ∀ c ∈ w, c ∈ [' ', '\t', '\r', '\n']) :
    ∃ pos, parseScript (renderWith dr (.pat s) ++ w) file = .ok (.lit (.pat s) pos) := by
  obtain ⟨σ', col, hr, hk, ho, _⟩ := pattern_token_roundtrip dr file {} rfl rfl s hne hs (w ++ [' '])
  refine ⟨⟨file, 1, col⟩, ?_⟩
  rw [parseScript_eq, scan_finish hw hr (by rw [hk]), ho]
  show Parser.parse file [_] = _
  have := parseWith_pattern (fun _ => true) file ⟨renderWith dr (.pat s), .pattern, ⟨file, 1, col⟩⟩
    rfl rfl
  rw [Parser.parse, this]
  simp [renderWith]

example : ∃ pos, parseScript (render (.pat ['a', '.', '*', '\\', 'd']) ++ []) "f"
    = .ok (.lit (.pat ['a', '.', '*', '\\', 'd']) pos) :=
  roundtrip_pattern decRepr "f" _ (by simp) (by decide) [] (by simp)

/-- counterexamples: the empty pattern, a pattern that starts with `/`, one that contains `//`
    and one that ends with `/` do not scan back to one pattern token (the second even leaves an
    unterminated `//` that the scanner silently drops at the end of the input); a single `/`
    inside is harmless -/
example :
    scanTV (render (.pat [])) "f" = some [(['/', '/', '/'], .pattern), (['/'], .operator)] ∧
    scanTV (render (.pat ['/', 'a'])) "f" = some [(['/', '/', '/'], .pattern), (['a'], .identifier)] ∧
    scanTV (render (.pat ['a', '/', '/', 'b'])) "f"
      = some [(['/', '/', 'a', '/', '/'], .pattern), (['b'], .identifier)] ∧
    scanTV (render (.pat ['a', '/'])) "f" = some [(['/', '/', 'a', '/', '/'], .pattern), (['/'], .operator)] ∧
    scanTV (render (.pat ['a', '/', 'b'])) "f" = some [(['/', '/', 'a', '/', 'b', '/', '/'], .pattern)] := by
  decide

/-- dates: the text of a date is a numeral, which scans (and parses) as an int -/
example : scanTV (render (.date ⟨2024, 2, 29, 13, 5, 9, 0⟩)) "f"
    = some [(['2', '0', '2', '4', '0', '2', '2', '9', '1', '3', '0', '5', '0', '9'], .int)] := by
  decide

/-! ## Part 7: (nested) lists of scalars through scanner AND parser -/

mutual
  /-- `NodeIs v n`: `n` is the literal AST of the data value `v`, source positions aside
      (`NULL` is the identifier `NULL`) -/
  def NodeIs : Val → Node → Prop
    | .null, .ident name _ => name = "NULL"
    | .bool b, .lit (.bool b') _ => b' = b
    | .int k, .lit (.int k') _ => k' = k
    | .str s, .lit (.str s') _ => s' = s
    | .list xs, .list ns _ => NodeIsL xs ns
    | _, _ => False
  def NodeIsL : List Val → List Node → Prop
    | [], [] => True
    | x :: xs, n :: ns => NodeIs x n ∧ NodeIsL xs ns
    | _, _ => False
end

mutual
  /-- every int inside `v` has a numeral of at most 4300 digits (CPython's `int`/`str` limit) -/
  def DigitsOK : Val → Prop
    | .int n => (Nat.toDigits 10 n.natAbs).length ≤ 4300
    | .list xs => DigitsOKL xs
    | _ => True
  def DigitsOKL : List Val → Prop
    | [] => True
    | x :: xs => DigitsOK x ∧ DigitsOKL xs
end

theorem map_tv_singleton {l : List Token} {v : List Char} {ty : TokType} (h : l.map tv = [(v, ty)]) :
    ∃ t, l = [t] ∧ t.value = v ∧ t.type = ty := by
  cases l with
  | nil => simp at h
  | cons t l' =>
    cases l' with
    | nil =>
      simp only [List.map_cons, List.map_nil, List.cons.injEq, and_true, tv, Prod.mk.injEq] at h
      exact ⟨t, rfl, h.1, h.2⟩
    | cons _ _ => simp at h

theorem scalar_litToks (v : Val)
    (hv : v = .null ∨ (∃ b, v = .bool b) ∨ (∃ n, v = .int n) ∨ (∃ s, v = .str s)) (hd : DigitsOK v)
    (l : List Token) (hl : l.map tv = dataToks v) : ∃ n, LitToks l n ∧ NodeIs v n := by
  rcases hv with rfl | ⟨b, rfl⟩ | ⟨n, rfl⟩ | ⟨s, rfl⟩
  · obtain ⟨t, rfl, h1, h2⟩ := map_tv_singleton (by simpa [dataToks] using hl)
    exact ⟨_, .ident t h2, by rw [NodeIs, h1]; rfl⟩
  · cases b with
    | true =>
      obtain ⟨t, rfl, h1, h2⟩ := map_tv_singleton (by simpa [dataToks] using hl)
      exact ⟨_, .bool t h2, by rw [NodeIs, h1]; rfl⟩
    | false =>
      obtain ⟨t, rfl, h1, h2⟩ := map_tv_singleton (by simpa [dataToks] using hl)
      exact ⟨_, .bool t h2, by rw [NodeIs, h1]; rfl⟩
  · have hd' : (Nat.toDigits 10 n.natAbs).length ≤ 4300 := by simpa [DigitsOK] using hd
    by_cases hn : n < 0
    · simp only [dataToks, intToks, hn, if_true] at hl
      cases l with
      | nil => simp at hl
      | cons tm l' =>
        simp only [List.map_cons, List.cons.injEq, tv, Prod.mk.injEq] at hl
        obtain ⟨⟨hm1, hm2⟩, hl'⟩ := hl
        obtain ⟨t, rfl, h1, h2⟩ := map_tv_singleton hl'
        refine ⟨_, .negInt tm t n.natAbs ⟨hm1, hm2⟩ h2 (by rw [h1]; exact parseIntLit_toDigits _ hd'), ?_⟩
        rw [NodeIs]; omega
    · simp only [dataToks, intToks, hn, if_false] at hl
      obtain ⟨t, rfl, h1, h2⟩ := map_tv_singleton hl
      refine ⟨_, .int t n.natAbs h2 (by rw [h1]; exact parseIntLit_toDigits _ hd'), ?_⟩
      rw [NodeIs]; omega
  · obtain ⟨t, rfl, h1, h2⟩ := map_tv_singleton (by simpa [dataToks] using hl)
    exact ⟨_, .str t h2, by rw [NodeIs, h1]⟩

mutual
  /-- a token list whose (value, type) sequence is `dataToks v` spells the literal of `v` -/
  theorem data_litToks : ∀ (v : Val), IsData v → DigitsOK v → ∀ (l : List Token),
      l.map tv = dataToks v → ∃ n, LitToks l n ∧ NodeIs v n
    | .null, _, hd, l, hl => scalar_litToks .null (Or.inl rfl) hd l hl
    | .bool b, _, hd, l, hl => scalar_litToks (.bool b) (Or.inr (Or.inl ⟨b, rfl⟩)) hd l hl
    | .int n, _, hd, l, hl => scalar_litToks (.int n) (Or.inr (Or.inr (Or.inl ⟨n, rfl⟩))) hd l hl
    | .str s, _, hd, l, hl => scalar_litToks (.str s) (Or.inr (Or.inr (Or.inr ⟨s, rfl⟩))) hd l hl
    | .list xs, hv, hd, l, hl => by
      simp only [dataToks] at hl
      cases l with
      | nil => simp at hl
      | cons tl l' =>
        simp only [List.map_cons, List.cons.injEq, tv, Prod.mk.injEq] at hl
        obtain ⟨⟨hl1, hl2⟩, hl'⟩ := hl
        obtain ⟨body, lr, rfl, hbody, hlr⟩ := List.map_eq_append_iff.mp hl'
        obtain ⟨tr, rfl, hr1, hr2⟩ := map_tv_singleton hlr
        rcases dataL_litToks xs (by simpa [IsData] using hv) (by simpa [DigitsOK] using hd) body hbody
          with ⟨rfl, rfl⟩ | ⟨ts, rest, n, ns, rfl, hts, hrest, hns⟩
        · exact ⟨_, .nil tl tr ⟨hl1, hl2⟩ ⟨hr1, hr2⟩, by simp [NodeIs, NodeIsL]⟩
        · refine ⟨.list (n :: ns) tl.pos, ?_, by rw [NodeIs]; exact hns⟩
          have := LitToks.list tl tr ts rest n ns ⟨hl1, hl2⟩ ⟨hr1, hr2⟩ hts hrest
          simpa using this
    | .dec _ _, hv, _, _, _ => by simp [IsData] at hv
    | .pat _, hv, _, _, _ => by simp [IsData] at hv
    | .date _, hv, _, _, _ => by simp [IsData] at hv
    | .set _, hv, _, _, _ => by simp [IsData] at hv
    | .map _, hv, _, _, _ => by simp [IsData] at hv
  theorem dataL_litToks : ∀ (xs : List Val), IsDataL xs → DigitsOKL xs → ∀ (l : List Token),
      l.map tv = dataToksL xs →
      (xs = [] ∧ l = []) ∨ ∃ ts rest n ns, l = ts ++ rest ∧ LitToks ts n ∧ RestToks rest ns ∧
        NodeIsL xs (n :: ns)
    | [], _, _, l, hl => Or.inl ⟨rfl, by simpa [dataToksL] using hl⟩
    | x :: xs, hv, hd, l, hl => by
      obtain ⟨hx, hxs⟩ : IsData x ∧ IsDataL xs := by simpa [IsDataL] using hv
      obtain ⟨dx, dxs⟩ : DigitsOK x ∧ DigitsOKL xs := by simpa [DigitsOKL] using hd
      simp only [dataToksL] at hl
      obtain ⟨ts, rest, rfl, hts, hrest⟩ := List.map_eq_append_iff.mp hl
      obtain ⟨n, hn, hnn⟩ := data_litToks x hx dx ts hts
      obtain ⟨ns, hns, hnns⟩ := dataT_litToks xs hxs dxs rest hrest
      exact Or.inr ⟨ts, rest, n, ns, rfl, hn, hns, by rw [NodeIsL]; exact ⟨hnn, hnns⟩⟩
  theorem dataT_litToks : ∀ (ys : List Val), IsDataL ys → DigitsOKL ys → ∀ (l : List Token),
      l.map tv = dataToksT ys → ∃ ns, RestToks l ns ∧ NodeIsL ys ns
    | [], _, _, l, hl => by
      have : l = [] := by simpa [dataToksT] using hl
      subst this; exact ⟨[], .nil, by simp [NodeIsL]⟩
    | y :: ys, hv, hd, l, hl => by
      obtain ⟨hy, hys⟩ : IsData y ∧ IsDataL ys := by simpa [IsDataL] using hv
      obtain ⟨dy, dys⟩ : DigitsOK y ∧ DigitsOKL ys := by simpa [DigitsOKL] using hd
      simp only [dataToksT] at hl
      cases l with
      | nil => simp at hl
      | cons tc l' =>
        simp only [List.map_cons, List.cons.injEq, tv, Prod.mk.injEq] at hl
        obtain ⟨⟨hc1, hc2⟩, hl'⟩ := hl
        obtain ⟨ts, rest, rfl, hts, hrest⟩ := List.map_eq_append_iff.mp hl'
        obtain ⟨n, hn, hnn⟩ := data_litToks y hy dy ts hts
        obtain ⟨ns, hns, hnns⟩ := dataT_litToks ys hys dys rest hrest
        exact ⟨n :: ns, .cons tc ts rest n ns ⟨hc1, hc2⟩ hn hns, by rw [NodeIsL]; exact ⟨hnn, hnns⟩⟩
end

/-- **roundtrip_data**: for every data value built from NULL, booleans, ints (numerals of at most
    4300 digits), strings and arbitrarily nested lists, printing it and parsing the text (alone or
    followed by whitespace) succeeds and yields the literal AST of the value. -/
theorem roundtrip_data (file : String) (v : Val) (hv : IsData v) (hd : DigitsOK v) (w : List Char)
    (hw : ∀ c ∈ w, c ∈ [' ', '\t', '\r', '\n']) :
    ∃ n, parseScript (renderWith dr v ++ w) file = .ok n ∧ NodeIs v n := by
  have hs := list_tokens_roundtrip dr file v hv w hw
  unfold scanTV at hs
  cases hsc : scan (renderWith dr v ++ w) file with
  | error e => rw [hsc] at hs; cases hs
  | ok l =>
    rw [hsc] at hs
    simp only [Option.some.injEq] at hs
    obtain ⟨n, hn, hnn⟩ := data_litToks v hv hd l hs
    refine ⟨n, ?_, hnn⟩
    rw [parseScript_eq, hsc]
    exact hn.parse _ file

/-- non-vacuity: `[1, -2, 'a\'b', [TRUE, NULL], []]` -/
example : ∃ n, parseScript
      (render (.list [.int 1, .int (-2), .str ['a', '\'', 'b'], .list [.bool true, .null], .list []]))
      "f" = .ok n ∧
    NodeIs (.list [.int 1, .int (-2), .str ['a', '\'', 'b'], .list [.bool true, .null], .list []]) n := by
  have := roundtrip_data decRepr "f"
    (.list [.int 1, .int (-2), .str ['a', '\'', 'b'], .list [.bool true, .null], .list []])
    (by simp [IsData, IsDataL]) (by simp [DigitsOK, DigitsOKL]; decide) [] (by simp)
  simpa [render] using this

end Ckl.C08
