import CklVerif.Lemmas.C19SrcUnion

/-! C19Src — set.ckl `symmetric_diff(seta, setb) = union(diff(seta, setb), diff(setb, seta))`: three calls of library functions
    resolved through the environment; the two differences are FRESH set cells, enumerated in sorted order by `union` -/
namespace Ckl.C19Src
open Ckl Ckl.C03 Ckl.Gen.LibSrc
variable (ld : Loader)

def symDiffSrcs : List (String × Node) := [("union", set_union), ("diff", set_diff)]

theorem length_sortedItems (vs : List Val) : (sortedItems decRepr vs).length = vs.length :=
  (C07.sortBy_perm _ vs).length_eq

theorem length_diffM_le (a b : List Val) : (Lib.diffM a b).length ≤ a.length :=
  (C19.diffM_sublist a b).length_le

theorem symmetricDiffM_eq (a b : List Val) :
    Lib.unionM (sortedItems decRepr (Lib.diffM a b)) (sortedItems decRepr (Lib.diffM b a)) = Lib.symmetricDiffM decRepr a b := rfl

theorem scalarL_diffM {a : List Val} (b : List Val) (ha : ScalarL a) : ScalarL (Lib.diffM a b) :=
  scalarL_filtAcc (fun x => !memV x b) ha

/-- the body of `symmetric_diff` on two collections of scalars -/
theorem symmetric_diff_body {s s0 : State} {M nats srcs m} {va vb : RVal} {enA enB : List Val}
    (h : LibEnv s M nats srcs) (LM : ListMod s M)
    (ctx : Ctx s0 M nats srcs s.frames.size m [("seta", va), ("setb", vb)]) (e0 : Ext s s0) (m0 : SameMods s s0)
    (hn : ∀ x ∈ unionNats, x ∈ nats) (hs : ∀ p ∈ symDiffSrcs, p ∈ srcs) (CA : Coll s va enA) (CB : Coll s vb enB) :
    ∃ r s', Ev ld (enA.length + enB.length + 31) s.frames.size (lamBody set_symmetric_diff) s0 (.ok (.ref r) s') ∧
      (Ext s s' ∧ SameMods s s' ∧ s.heap.size ≤ r ∧
        s'.cell r = some (.set ((Lib.symmetricDiffM decRepr enA enB).map liftV))) := by
  unfold lamBody set_symmetric_diff
  simp only []
  have hnS : ∀ x ∈ setNats, x ∈ nats := fun x hx => hn x (by simp [setNats] at hx; subst hx; decide)
  -- the two calls of `diff`
  obtain ⟨fD, mD, hlD, hmD, hsrcD⟩ := ctx.src (x := "diff") (src := set_diff) (hs _ (by simp [symDiffSrcs])) (by rfl)
  obtain ⟨fU, mU, hlU, hmU, hsrcU⟩ := ctx.src (x := "union") (src := set_union) (hs _ (by simp [symDiffSrcs])) (by rfl)
  obtain ⟨r1, u1, ⟨X1, N1, hr1, hc1⟩, C1⟩ := diff_calls ld ctx.env hnS hmD hsrcD va vb enA enB (CA.ext e0) (CB.ext e0)
  have ctx1 := ctx.ext X1
  obtain ⟨r2, u2, ⟨X2, N2, hr2, hc2⟩, C2⟩ := diff_calls ld ctx1.env hnS hmD (hsrcD.ext X1) vb va enB enA
    ((CB.ext e0).ext X1) ((CA.ext e0).ext X1)
  have D1 : ∀ p1 p2 p3 p4, Ev ld (enA.length + 18) s.frames.size
      (.call (.ident "diff" p1) [none, none] [.ident "seta" p2, .ident "setb" p3] p4) s0 (.ok (.ref r1) u1) := by
    intro p1 p2 p3 p4
    have A := Ev.callSrc2 ld (k := enA.length + 14) (p := p1) (pos := p4) hlD hsrcD rfl (by decide) (by decide) (by decide)
      (by trivial) (by trivial) (Ev.ident ld (p := p2) (ctx.var (x := "seta") (by rfl)))
      (Ev.ident ld (p := p3) (ctx.var (x := "setb") (by rfl))) (C1 s.frames.size p4)
    rw [wrapCall_ok] at A; exact A
  have hlD1 : u1.lookup s.frames.size "diff" = some fD := by
    -- the lookup is determined by the frames, which `Ext` keeps
    have e : u1.lookup s.frames.size "diff" = s0.lookup s.frames.size "diff" := by
      obtain ⟨v, m', hres, _, _⟩ := ctx.env.src m ctx.mem ("diff", set_diff) (hs _ (by simp [symDiffSrcs]))
      rw [lookup_global ctx1.fr (x := "diff") (by rfl) (hres.ext X1), lookup_global ctx.fr (x := "diff") (by rfl) hres]
    rw [e]; exact hlD
  have D2 : ∀ p1 p2 p3 p4, Ev ld (enB.length + 18) s.frames.size
      (.call (.ident "diff" p1) [none, none] [.ident "setb" p2, .ident "seta" p3] p4) u1 (.ok (.ref r2) u2) := by
    intro p1 p2 p3 p4
    have A := Ev.callSrc2 ld (k := enB.length + 14) (p := p1) (pos := p4) hlD1 (hsrcD.ext X1) rfl (by decide) (by decide)
      (by decide) (by trivial) (by trivial) (Ev.ident ld (p := p2) (ctx1.var (x := "setb") (by rfl)))
      (Ev.ident ld (p := p3) (ctx1.var (x := "seta") (by rfl))) (C2 s.frames.size p4)
    rw [wrapCall_ok] at A; exact A
  -- the call of `union` on the two fresh set cells
  have E2 : Ext s u2 := (e0.trans X1).trans X2
  have M2 : SameMods s u2 := (m0.trans N1).trans N2
  have hsA : ScalarL (Lib.diffM enA enB) := scalarL_diffM enB CA.1
  have hsB : ScalarL (Lib.diffM enB enA) := scalarL_diffM enA CB.1
  have hc1' : u2.cell r1 = some (.set ((Lib.diffM enA enB).map liftV)) := by rw [X2.cell r1 (cell_lt hc1)]; exact hc1
  obtain ⟨r3, u3, ⟨X3, N3, hr3, hc3⟩, C3⟩ := union_calls ld (h.ext E2) hn (LM.ext h.lt E2 M2) hmU ((hsrcU.ext X1).ext X2)
    (.ref r1) (.ref r2) _ _ (Coll.ofSet hsA hc1') (Coll.ofSet hsB hc2)
  rw [symmetricDiffM_eq, length_sortedItems, length_sortedItems] at *
  have hl1 := length_diffM_le enA enB
  have hl2 := length_diffM_le enB enA
  refine ⟨r3, u3, ?_, E2.trans X3, M2.trans N3, Nat.le_trans E2.hsize hr3, hc3⟩
  refine Ev.mono ld (k := enA.length + enB.length + 27 + 4) (Ev.congr ld (Ev.callSrc2 ld (k := enA.length + enB.length + 27)
    hlU ((hsrcU.ext X1).ext X2) rfl (by decide)
    (by decide) (by decide) (by trivial) (by trivial)
    (Ev.mono ld (D1 _ _ _ _) (by omega)) (Ev.mono ld (D2 _ _ _ _) (by omega))
    (Calls.mono ld (C3 s.frames.size _) (by omega))) (wrapCall_ok _ _ _ _)) (by omega)

theorem symmetric_diff_calls {s : State} {M nats srcs fn m} (h : LibEnv s M nats srcs) (hn : ∀ x ∈ unionNats, x ∈ nats)
    (hs : ∀ p ∈ symDiffSrcs, p ∈ srcs) (LM : ListMod s M) (hm : M m) (hsrc : IsSrc s fn set_symmetric_diff m)
    (va vb : RVal) (enA enB : List Val) (CA : Coll s va enA) (CB : Coll s vb enB) :
    ∃ r s', (Ext s s' ∧ SameMods s s' ∧ s.heap.size ≤ r ∧
        s'.cell r = some (.set ((Lib.symmetricDiffM decRepr enA enB).map liftV))) ∧
      ∀ env pos, Calls ld (enA.length + enB.length + 32) fn [("seta", va), ("setb", vb)] env pos s (.ok (.ref r) s') :=
  calls_of_body2E ld (src := set_symmetric_diff) rfl rfl rfl (by omega) (by decide) h hm hsrc va vb
    (fun s0 ctx e0 m0 => symmetric_diff_body ld h LM ctx e0 m0 hn hs CA CB)

end Ckl.C19Src
