"""C02 Operators evaluate per the language definition; integer arithmetic is exact."""
import itertools
import math
from fractions import Fraction

from harness import core, proto, session, astdump
from harness.props import common

PREC = {"or": 1, "and": 2, "not": 3, "cmp": 4, "+": 5, "-": 5, "*": 6, "/": 6, "%": 6, "neg": 7, "atom": 8}
ARITH = ["+", "-", "*", "/", "%"]
CMPOPS = ["==", "!=", "<>", "<", "<=", ">", ">=", "is", "is not"]
FN = {"+": "add", "-": "sub", "*": "mul", "/": "div", "%": "mod", "<": "less", "<=": "less_equals", ">": "greater", ">=": "greater_equals",
      "==": "equals", "is": "equals", "!=": "not_equals", "<>": "not_equals", "is not": "not_equals"}

INT_POOL = [0, 1, -1, 2, 3, 7, -7, 10, 2 ** 31, 2 ** 53 + 1, 2 ** 63, 2 ** 64 + 3, -(2 ** 63) - 1, 10 ** 20 + 7, 9007199254740993]
DEC_POOL = [0.5, 1.5, 2.0, -2.5, 1000.0, 0.1]


NONBOOL = [('null',), ('i', 0), ('i', 1), ('d', 0.0), ('d', 1.5), ('s', ''), ('s', 'a'), ('l', ()), ('l', (('i', 1), ('i', 2)))]


class Err(Exception):
    pass


class Unknown(Exception):
    pass


# ------------------------------------------------------------------ trees

def lit(v):
    return ('lit', v)


def gen_tree(rng, depth, want="any"):
    """want: 'num' | 'bool' | 'any'"""
    if depth <= 0 or rng.random() < 0.2:
        if want == "bool":
            if rng.random() < 0.08:
                return lit(rng.choice(NONBOOL))       # and/or/not accept only booleans
            return lit(('b', rng.random() < 0.5))
        r = rng.random()
        if r < 0.55:
            return lit(('i', rng.choice(INT_POOL)))
        if r < 0.7:
            return lit(('d', rng.choice(DEC_POOL)))
        if r < 0.8:
            return lit(('null',))
        if r < 0.9 and want == "any":
            return lit(rng.choice([('s', 'a'), ('s', ''), ('b', True), ('l', (('i', 1), ('i', 2)))]))
        return lit(('i', rng.choice(INT_POOL)))
    if want == "bool":
        k = rng.random()
        if k < 0.35:
            n = rng.randint(1, 3)
            ops = [rng.choice(CMPOPS) for _ in range(n)]
            return ('cmp', [gen_tree(rng, depth - 1, "num") for _ in range(n + 1)], ops)
        if k < 0.55:
            return ('and', [gen_tree(rng, depth - 1, "bool") for _ in range(rng.randint(2, 3))])
        if k < 0.75:
            return ('or', [gen_tree(rng, depth - 1, "bool") for _ in range(rng.randint(2, 3))])
        if k < 0.9:
            return ('not', gen_tree(rng, depth - 1, "bool"))
        return ('in', gen_tree(rng, 0, "num"), lit(('l', (('i', 1), ('i', 2), ('d', 3.0)))))
    k = rng.random()
    if k < 0.75:
        return ('bin', rng.choice(ARITH), gen_tree(rng, depth - 1, "num"), gen_tree(rng, depth - 1, "num"))
    if k < 0.85:
        return ('neg', gen_tree(rng, depth - 1, "num"))
    if want == "any" and k < 0.95:
        return gen_tree(rng, depth, "bool")
    return ('bin', rng.choice(ARITH), gen_tree(rng, depth - 1, "num"), gen_tree(rng, depth - 1, "num"))


def prec(t):
    k = t[0]
    if k == 'lit':
        v = t[1]
        return PREC["neg"] if v[0] in ('i', 'd') and v[1] < 0 else PREC["atom"]
    if k == 'bin':
        return PREC[t[1]]
    if k in ('cmp', 'in'):
        return PREC["cmp"]
    return PREC[k]


def show_lit(v):
    t = v[0]
    if t == 'i':
        return str(v[1])
    if t == 'd':
        from ckl.values import ValueDecimal
        return str(ValueDecimal(v[1]))
    if t == 'b':
        return "TRUE" if v[1] else "FALSE"
    if t == 'null':
        return "NULL"
    if t == 's':
        return "'" + v[1] + "'"
    if t == 'l':
        return "[" + ", ".join(show_lit(x) for x in v[1]) + "]"
    raise ValueError(v)


def pretty(t, rng=None, redundant=0.0):
    """minimal parentheses for the stated precedence / left associativity; optional redundant ones"""
    def sub(x, minprec):
        s = pretty(x, rng, redundant)
        if prec(x) < minprec or (rng is not None and rng.random() < redundant):
            return "(" + s + ")"
        return s
    k = t[0]
    if k == 'lit':
        return show_lit(t[1])
    if k == 'bin':
        p = PREC[t[1]]
        return sub(t[2], p) + " " + t[1] + " " + sub(t[3], p + 1)
    if k == 'neg':
        # unary minus applies to a predicate expression: an atom (a negative literal needs parens: `- -3` is a syntax error);
        # directly before a non-negative numeric literal it folds into the literal: no redundant parentheses there
        if t[1][0] == 'lit' and t[1][1][0] in ('i', 'd') and t[1][1][1] >= 0:
            return "-" + show_lit(t[1][1])
        return "-" + sub(t[1], PREC["atom"])
    if k == 'not':
        return "not " + sub(t[1], PREC["cmp"])
    if k == 'cmp':
        out = sub(t[1][0], PREC["+"])
        for op, x in zip(t[2], t[1][1:]):
            out += " " + op + " " + sub(x, PREC["+"])
        return out
    if k == 'in':
        return sub(t[1], PREC["atom"]) + " in " + sub(t[2], PREC["atom"])
    if k == 'and':
        return " and ".join(sub(x, PREC["not"]) for x in t[1])
    if k == 'or':
        return " or ".join(sub(x, PREC["and"]) for x in t[1])
    raise ValueError(t)


# ------------------------------------------------------------------ reference semantics (the language definition)

def num(v):
    return isinstance(v, (int, float)) and not isinstance(v, bool)


def ref_arith(op, a, b):
    if a is None or b is None:
        if op == "-" and (isinstance(a, (list, str)) and a is not None and not isinstance(a, str)):
            raise Unknown()
        if op in ("+", "*", "/", "%") or (not isinstance(a, list)):
            return None
    if isinstance(a, bool) or isinstance(b, bool) or not (num(a) and num(b)):
        raise Unknown()
    both_int = isinstance(a, int) and isinstance(b, int)
    if both_int:
        if op == "+":
            return a + b
        if op == "-":
            return a - b
        if op == "*":
            return a * b
        if b == 0:
            raise Err('ERROR')
        if op == "/":
            q = abs(a) // abs(b)
            return -q if (a < 0) != (b < 0) else q
        r = a % b
        assert abs(r) < abs(b) and (a - r) % b == 0
        return r
    try:
        x, y = float(a), float(b)
    except OverflowError:
        raise Err('ERROR')
    if op == "+":
        r = x + y
    elif op == "-":
        r = x - y
    elif op == "*":
        r = x * y
    else:
        if y == 0.0:
            raise Err('ERROR')
        r = x / y if op == "/" else math.fmod(x, y) if False else x % y
    if math.isinf(r) or math.isnan(r):
        raise Unknown()
    return r


def ref_eq(a, b):
    if num(a) and num(b):
        return Fraction(a) == Fraction(b)
    if type(a) is not type(b):
        return False
    if isinstance(a, list):
        return len(a) == len(b) and all(ref_eq(x, y) for x, y in zip(a, b))
    return a == b


def ref_lt(a, b):
    if num(a) and num(b):
        return Fraction(a) < Fraction(b)
    if isinstance(a, str) and isinstance(b, str):
        return a < b
    if isinstance(a, bool) and isinstance(b, bool):
        return (not a) and b
    raise Unknown()


def ref_cmp(op, a, b):
    if op in ("==", "is"):
        return ref_eq(a, b)
    if op in ("!=", "<>", "is not"):
        return not ref_eq(a, b)
    if op == "<":
        return ref_lt(a, b)
    if op == ">":
        return ref_lt(b, a)
    if op == "<=":
        return ref_lt(a, b) or ref_eq(a, b)
    return ref_lt(b, a) or ref_eq(a, b)


def py_of(av):
    t = av[0]
    if t == 'null':
        return None
    if t in ('i', 'd', 'b', 's'):
        return av[1]
    if t == 'l':
        return [py_of(x) for x in av[1]]
    raise Unknown()


def ref_eval(t):
    k = t[0]
    if k == 'lit':
        return py_of(t[1])
    if k == 'bin':
        a = ref_eval(t[2])
        b = ref_eval(t[3])
        return ref_arith(t[1], a, b)
    if k == 'neg':
        if t[1][0] == 'lit' and t[1][1][0] in ('i', 'd') and t[1][1][1] >= 0 and not (t[1][1][0] == 'd' and t[1][1][1] == 0):
            return -t[1][1][1]
        v = ref_eval(t[1])
        return ref_arith("-", 0, v)
    if k == 'not':
        v = ref_eval(t[1])
        if not isinstance(v, bool):
            raise Err('ERROR')
        return not v
    if k == 'cmp':
        # a comparison chain is the conjunction of its adjacent pairs, left to right, short-circuit
        for i, op in enumerate(t[2]):
            a = ref_eval(t[1][i])
            b = ref_eval(t[1][i + 1])
            if not ref_cmp(op, a, b):
                return False
        return True
    if k == 'in':
        v = ref_eval(t[1])
        c = ref_eval(t[2])
        if isinstance(c, list):
            return any(ref_eq(v, x) for x in c)
        raise Unknown()
    if k in ('and', 'or'):
        for x in t[1]:
            v = ref_eval(x)
            if not isinstance(v, bool):
                raise Err('ERROR')
            if k == 'and' and not v:
                return False
            if k == 'or' and v:
                return True
        return k == 'and'
    raise ValueError(t)


def av_of(v):
    if v is None:
        return ('null',)
    if isinstance(v, bool):
        return ('b', v)
    if isinstance(v, int):
        return ('i', v)
    if isinstance(v, float):
        return ('d', v)
    if isinstance(v, str):
        return ('s', v)
    if isinstance(v, list):
        return ('l', tuple(av_of(x) for x in v))
    raise ValueError(v)


# ------------------------------------------------------------------ expected AST (pins precedence and associativity)

def s_(x):
    return "s:" + proto.enc_str(x)


def call2(fn, a, b):
    return f"(call (id {s_(fn)}) (O {s_('a')} {s_('b')}) (L {a} {b}))"


def expected_ast(t):
    k = t[0]
    if k == 'lit':
        v = t[1]
        if v[0] == 'null':
            return f"(id {s_('NULL')})"
        if v[0] == 'l':
            return "(list (L" + "".join(" " + expected_ast(lit(x)) for x in v[1]) + "))"
        if v[0] in ('i', 'd') and v[1] < 0:
            return "(lit (v " + proto.to_sx(v) + "))"
        return "(lit (v " + proto.to_sx(v) + "))"
    if k == 'bin':
        return call2(FN[t[1]], expected_ast(t[2]), expected_ast(t[3]))
    if k == 'neg':
        inner = t[1]
        if inner[0] == 'lit' and inner[1][0] in ('i', 'd') and inner[1][1] >= 0:
            v = inner[1]
            neg = (v[0], -v[1])
            return "(lit (v " + proto.to_sx(neg) + "))"
        return call2("sub", "(lit (v (i 0)))", expected_ast(inner))
    if k == 'not':
        return "(not " + expected_ast(t[1]) + ")"
    if k == 'cmp':
        parts = [call2(FN[op], expected_ast(t[1][i]), expected_ast(t[1][i + 1])) for i, op in enumerate(t[2])]
        return parts[0] if len(parts) == 1 else "(and (L " + " ".join(parts) + "))"
    if k == 'in':
        return "(in " + expected_ast(t[1]) + " " + expected_ast(t[2]) + ")"
    if k in ('and', 'or'):
        return "(" + k + " (L " + " ".join(expected_ast(x) for x in t[1]) + "))"
    raise ValueError(t)


def has_neg_zero(t):
    if t[0] == 'neg' and t[1][0] == 'lit' and t[1][1] in (('d', 0.0), ('i', 0)):
        return t[1][1][0] == 'd'
    if t[0] == 'lit':
        return False
    for x in t[1:]:
        if isinstance(x, tuple) and x and isinstance(x[0], str) and x[0] in PREC or isinstance(x, tuple) and x and x[0] in ('lit', 'bin', 'neg', 'not', 'cmp', 'in', 'and', 'or'):
            if has_neg_zero(x):
                return True
        if isinstance(x, list):
            if any(has_neg_zero(y) for y in x if isinstance(y, tuple)):
                return True
    return False


def run(ctx):
    from ckl.parser import parse_script
    from ckl.errors import CklSyntaxError
    rng = ctx.rng
    ctx.rule = ("random expression trees to depth 5 over ints (incl. |n| > 2^63), decimals, booleans, NULL, strings and lists, printed with "
                "minimal and with redundant parentheses; exhaustively every ordered pair of binary operators in `a op1 b op2 c` and every "
                "unary/binary combination over a fixed operand set; `x is [not] P` for every predicate form on values of every kind; the parse "
                "must be the tree the precedence rules dictate, the value the one exact int / Fraction arithmetic gives; non-trivial = >= 2 "
                "operators or an operand beyond 2^53")
    impl = session.ImplSession()
    progs = []          # (source, tree or None)
    try:
        # ---------------- random trees
        for _ in range(6000 if ctx.thorough else 1200):
            t = gen_tree(rng, rng.randint(1, 5), rng.choice(["num", "bool", "any"]))
            if has_neg_zero(t):
                continue
            for red in (0.0, 0.3):
                src = pretty(t, rng, red)
                progs.append((src, t))
        # ---------------- every ordered pair of binary operators / unary-binary combinations
        binops = ARITH + ["==", "!=", "<", "<=", ">", ">=", "and", "or"]
        operands = {"num": [('i', 7), ('i', 3), ('i', 2)], "bool": [('b', True), ('b', False), ('b', True)]}
        for o1, o2 in itertools.product(binops, repeat=2):
            for kinds in itertools.product(["num", "bool"], repeat=3):
                a, b, c = (lit(operands[k][i]) for i, k in enumerate(kinds))
                progs.append((f"{show_lit(a[1])} {o1} {show_lit(b[1])} {o2} {show_lit(c[1])}", ('flat', o1, o2, a, b, c)))
        for o in binops:
            for u in ("-", "not "):
                progs.append((f"{u}7 {o} 3", None))
                progs.append((f"{u}TRUE {o} FALSE", None))
                progs.append((f"7 {o} {u.strip() + ' ' if u == 'not ' else u}3", None))
        # ---------------- and / or / not over every pair of (boolean or non-boolean, falsy or truthy) operands
        pool = [('b', True), ('b', False)] + NONBOOL
        for a in pool:
            progs.append((pretty(('not', lit(a))), ('not', lit(a))))
            for b in pool:
                for k in ('and', 'or'):
                    progs.append((pretty((k, [lit(a), lit(b)])), (k, [lit(a), lit(b)])))
                    progs.append((pretty((k, [lit(('b', k == 'and')), lit(a), lit(b)])), (k, [lit(('b', k == 'and')), lit(a), lit(b)])))
        # ---------------- every comparison operator on every ordered pair of a mixed int / decimal pool (either kind on either side)
        grid = [('i', x) for x in (0, 1, 2, 9, 10, -3, -5, 100, 2 ** 53 + 1, 2 ** 64)] + [('d', x) for x in (0.5, 2.5, 9.5, 10.0, -3.0, -4.5, 100.25, 18446744073709551616.0, 2.0)]
        for a in grid:
            for b in grid:
                for op in ("<", "<=", ">", ">=", "==", "!="):
                    t = ('cmp', [lit(a), lit(b)], [op])
                    progs.append((pretty(t), t))
        ctx.exhaustive = False
        reqs = []
        for src, t in progs:
            if isinstance(t, tuple) and t and t[0] == 'flat':
                _, o1, o2, a, b, c = t

                def mk(op, x, y):
                    if op in ARITH:
                        return ('bin', op, x, y)
                    if op in ("and", "or"):
                        return (op, [x, y])
                    return ('cmp', [x, y], [op])
                p1 = PREC["cmp"] if o1 in CMPOPS else PREC[o1]
                p2 = PREC["cmp"] if o2 in CMPOPS else PREC[o2]
                if o1 in CMPOPS and o2 in CMPOPS:
                    t = ('cmp', [a, b, c], [o1, o2])
                elif o1 == o2 and o1 in ("and", "or"):
                    t = (o1, [a, b, c])
                elif p2 > p1:
                    t = mk(o1, a, mk(o2, b, c))
                else:
                    t = mk(o2, mk(o1, a, b), c)
            nontriv = src.count(" ") >= 4 or any(str(x) in src for x in INT_POOL[8:])
            ctx.seen(src, nontrivial=nontriv)
            out = impl.run(src)
            rp = {"op": "expr", "src": src}
            if t is not None:
                # (1) parse = the tree dictated by precedence / associativity / chain desugaring
                try:
                    got_ast = astdump.dump(parse_script(src, "f"), False)
                except CklSyntaxError as e:
                    got_ast = "(syn " + str(e.msg)[:60] + ")"
                want_ast = expected_ast(t)
                ctx.count("ast_checked")
                if got_ast != want_ast:
                    ctx.violation("oracle", f"`{src}` parses to a different tree than precedence or<and<not<comparison<additive<multiplicative<unary dictates", dict(rp, expected_ast=want_ast, got_ast=got_ast))
                # (2) value = the language definition
                try:
                    want = ('val', proto.enum_form(av_of(ref_eval(t))))
                except Err as e:
                    want = ('rt', ('s', 'ERROR'))
                except Unknown:
                    want = None
                    ctx.count("reference_abstains")
                if want is not None:
                    ctx.count("value_checked")
                    got = out[0][:2]
                    if got != want:
                        ctx.violation("oracle", f"`{src}` evaluates to {got}, the language definition gives {want}", dict(rp, expected=str(want)))
            reqs.append(session.model_request([src]))
        # ---------------- x is [not] P on values of every kind
        preds = ["empty", "zero", "negative", "numerical", "alphanumerical", "date", "date with hour", "time", "string", "int", "decimal", "boolean",
                 "pattern", "None", "func", "input", "output", "list", "set", "map", "object", "node", "numerical min_len 2", "alphanumerical exact_len 3"]
        values = ["NULL", "0", "1", "-3", "2.5", "0.0", "''", "'abc'", "'12'", "'20200101'", "'2020010112'", "'1230'", "TRUE", "FALSE", "[]", "[1]", "<<>>", "<<1>>",
                  "<<<>>>", "<<<1 => 2>>>", "<**>", "<*a = 1*>", "fn(x) x", "//a//", "date('20200229')", "str_input('x')", "str_output()", "parse('1')"]
        for v in values:
            for p in preds:
                a = impl.run(f"({v}) is {p}")[0][:2]
                b = impl.run(f"({v}) is not {p}")[0][:2]
                ctx.seen(("pred", v, p))
                ok = (a[0] == b[0] == 'rt') or (a[0] == b[0] == 'val' and a[1][0] == 'b' and b[1][0] == 'b' and a[1][1] != b[1][1])
                if not ok:
                    ctx.violation("oracle", f"`({v}) is {p}` gives {a} but `({v}) is not {p}` gives {b}", {"op": "predicate", "value": v, "pred": p})
        # ---------------- the same parsed expression evaluated again under other variable values (in a function called several times and in a
        # loop) gives what a fresh evaluation of the expression with those values gives: nothing is remembered between evaluations
        # (comparison chains with compound middle operands, short-circuit forms, arithmetic; valuations ordered so that an early exit —
        # FALSE first comparison, deciding and/or clause, error — precedes a full evaluation and vice versa)
        exprs = ["a < b + 0 < c", "a < b * 1 <= c < a + 10", "a <= (b - 1) < (c + 1)", "a == b + 0 != c", "0 < a + b < c * 2", "a < -b < c", "not (a < b + 0 < c)",
                 "a < b and b + 0 < c", "a > b or b * 1 > c", "(a < b + 0) == (b + 0 < c)", "a + b * c", "a - b - c", "a / (b + 1) % (c + 1)", "a < (if b > 1 then b else c) < c + 1",
                 "a < b + 0 < c and c < a + b < 100", "[a < b + 0 < c, a + 0 < b < c + 0]", "a < b + 0 < c or a > b + 0 > c"]
        vals = [(5, 1, 9), (0, 3, 9), (0, 3, 2), (2, 2, 2), (-1, 0, 1), (9, 8, 7), (1, 2, 3), (3, 1, 2), (0, 0, 5)]
        for ex in exprs:
            fresh = []
            for (a, b, c) in vals:
                r = impl.run(f"def a = {a}; def b = {b}; def c = {c}; {ex}")[0][:2]
                fresh.append(r)
            triples = "[" + ", ".join(f"[{a}, {b}, {c}]" for a, b, c in vals) + "]"
            progs_re = [(f"def f_(a, b, c) {ex}; [" + ", ".join(f"f_({a}, {b}, {c})" for a, b, c in vals) + "]", "function called 9 times"),
                        (f"def r_ = []; for [a, b, c] in {triples} do append(r_, {ex}) end; r_", "loop body"),
                        (f"[(fn(a, b, c) {ex})(...t3) for t3 in {triples}]", "comprehension"),
                        (f"def g_ = fn(a, b, c) do def t_ = {ex}; t_ end; def r_ = []; for t3 in {triples} do append(r_, g_(...t3)) end; r_", "lambda with spread")]
            if not all(r[0] == 'val' for r in fresh):
                continue
            want = ('val', ('l', tuple(r[1] for r in fresh)))
            for src, how in progs_re:
                got = impl.run(src)[0][:2]
                ctx.seen(("reeval", src), nontrivial=True)
                ctx.count("re_evaluations")
                if got != want:
                    ctx.violation("oracle", f"`{ex}` evaluated again ({how}) over {vals} gives {got}, fresh evaluations give {want}", {"op": "expr", "src": src})
        # ---------------- `+` between a string and a value of another kind is concatenation with that value's text (the text string() gives)
        texts = ["0", "-7", "9007199254740993", "100000000000000000007", "2.5", "-0.5", "0.1", "1.0", "0.00001", "0.000000123", "1.0 / 100000", "1.0 / 3",
                 "10000000000000000.0", "123456789012345678901234.0", "1.5 * 10000000000000000000000", "1.0 * 9007199254740993", "TRUE", "NULL", "date('20200229')"]   # atoms only: `+` with a collection is a collection operation
        for v in texts:
            for tmpl in ("'x=' + ({v}) == 'x=' + string({v})", "({v}) + '!' == string({v}) + '!'", "def t = 'x='; t += ({v}); t == 'x=' + string({v})"):
                src = tmpl.replace("{v}", v)
                got = impl.run(src)[0][:2]
                ctx.seen(("concat", src), nontrivial=True)
                ctx.count("string_concatenations")
                if v == "NULL":
                    continue        # arithmetic on NULL gives NULL
                if got != ('val', ('b', True)):
                    ctx.violation("oracle", f"`{src}` gives {got}: concatenating a string with a value must use the value's text", {"op": "expr", "src": src})
            # … and that text is the literal of the value: what follows the prefix reads back as an equal value of the same type
            if v not in ("NULL", "date('20200229')"):
                r = impl.run(f"'x=' + ({v})")[0][:2]
                ctx.count("string_concatenations")
                if r[0] != 'val' or r[1][0] != 's' or not r[1][1].startswith("x="):
                    ctx.violation("oracle", f"`'x=' + ({v})` gives {r}", {"op": "expr", "src": f"'x=' + ({v})"})
                else:
                    txt = r[1][1][2:]
                    back = impl.run(f"({txt}) == ({v}) and type({txt}) == type({v})")[0][:2]
                    if back != ('val', ('b', True)):
                        ctx.violation("oracle", f"`'x=' + ({v})` gives 'x={txt}', and `{txt}` does not read back as that value ({back})", {"op": "expr", "src": f"'x=' + ({v})"})
        # ---------------- model evaluator and model front end
        if ctx.build.ok:
            resp = core.run_driver(reqs)
            for (src, t), r in zip(progs, resp):
                model, _ = session.parse_model_session(r)
                m = model[0]
                ctx.count("model_programs")
                if m[0][0] == 'fail':
                    ctx.count("model_abstains")
                    continue
                out = impl.run(src)
                d = session.compare((out[0], out[1], ()), (m[0], m[1], ()))
                if d:
                    ctx.disagreements += 1
                    ctx.violation("correspondence", f"`{src}`: {d}", {"op": "expr", "src": src, "correspondence": "Ckl.eval vs Interpreter.interpret"})
    finally:
        impl.close()
    ctx.sample({"expression": "9007199254740993 / 1", "value": 9007199254740993})
    ctx.sample({"expression": progs[0][0], "tree": str(progs[0][1])[:200]})
    ctx.sample({"expression": "7 - 3 - 2", "tree": "sub(sub(7,3),2)", "value": 2})
    common.replay_known(ctx)


def replay(ctx, payload):
    return common.generic_replay(ctx, payload)
